// Package sched is a cooperative scheduler for logical threads plus a
// stateless, preemption-bounded depth-first explorer over their
// interleavings. Instrumented code (see /verif/shim) calls Point before
// every visible step (filesystem syscall, lock acquisition, sleep); exactly
// one logical thread runs between two points, so an execution is fully
// determined by the sequence of choices made at the points.
package sched

import (
	"errors"
	"fmt"
	"os"
	"regexp"
	"runtime"
	"strconv"
	"sync/atomic"
	"time"
)

// ErrKilled is what shim operations return once their thread was killed
// (crash simulation): the operation is not performed.
var ErrKilled = errors.New("sched: thread killed (simulated crash)")

var active atomic.Bool

// SyncGo makes Go run its argument to completion before it returns while no exploration is active.
var SyncGo bool

// Detached counts the functions started under SyncGo that did not complete (long-lived workers).
var Detached atomic.Int64
var cur *Sched

// Active reports whether an exploration execution is in progress.
func Active() bool { return active.Load() }

type Thread struct {
	ID     int
	goid   int64
	wake   chan struct{}
	Pend   string // label of the pending (not yet executed) step
	yield  bool   // pending point is a voluntary yield (switching away is free)
	wait   *Lock  // lock this thread needs before it can continue
	waitRd bool
	done   bool
	killed bool
	Steps  int
	Panic  any
}

// Lock is the logical state of a vsync mutex during an exploration.
type Lock struct {
	Writer  bool
	Readers int
}

func (l *Lock) free(rd bool) bool {
	if rd {
		return !l.Writer
	}
	return !l.Writer && l.Readers == 0
}

// PointRec records one scheduling decision.
type PointRec struct {
	Enabled []int  // thread ids in canonical order (running thread first if enabled, then ascending)
	Chosen  int    // index into Enabled
	Thread  int    // id of the chosen thread
	Label   string // step the chosen thread executes next
	Free    bool   // switching away here costs no preemption (running thread not enabled or yielding)
	Running int    // thread that ran before this point (-1 at start)
}

// Exec is one complete execution.
type Exec struct {
	Points   []PointRec
	Choices  []int
	Deadlock bool
	Horizon  bool
	Killed   []int
	Panics   map[int]any
}

// Sched runs one execution.
type Sched struct {
	threads []*Thread
	parked  chan *Thread
	running *Thread
	killing bool
	Horizon int
	// Step hook: called (on the scheduler goroutine, all threads parked)
	// before each decision with the number of points passed so far.
	OnPoint func(step int)
	tmpctr  int
	clock   int
}

func goid() int64 {
	var buf [64]byte
	n := runtime.Stack(buf[:], false)
	// "goroutine 123 ["
	s := buf[len("goroutine "):n]
	i := 0
	for i < len(s) && s[i] >= '0' && s[i] <= '9' {
		i++
	}
	id, _ := strconv.ParseInt(string(s[:i]), 10, 64)
	return id
}

func fatal(format string, a ...any) {
	fmt.Fprintf(os.Stderr, "TOOLING-ERROR: sched: "+format+"\n", a...)
	os.Exit(2)
}

// me returns the logical thread of the calling goroutine.
func (s *Sched) me() *Thread {
	t := s.running
	if t == nil || t.goid != goid() {
		buf := make([]byte, 4096)
		n := runtime.Stack(buf, false)
		fatal("unowned nondeterminism: a goroutine that is not the running logical thread reached a scheduling point\n%s", buf[:n])
	}
	return t
}

// Point is called by instrumented code before a visible step. It returns
// true if the calling thread has been killed: the caller must then skip the
// step and return ErrKilled.
func Point(label string) (killed bool) {
	if !active.Load() {
		return false
	}
	s := cur
	if s.killing {
		return true
	}
	t := s.me()
	if t.killed {
		return true
	}
	t.Pend = label
	t.yield = false
	s.park(t)
	return t.killed
}

// Yield is a point at which switching to another thread is free (sleep, retry loops).
func Yield(label string) (killed bool) {
	if !active.Load() {
		return false
	}
	s := cur
	if s.killing {
		return true
	}
	t := s.me()
	if t.killed {
		return true
	}
	t.Pend = label
	t.yield = true
	s.park(t)
	return t.killed
}

func (s *Sched) park(t *Thread) {
	s.parked <- t
	<-t.wake
	if t.killed {
		// unwind the goroutine; deferred functions run with every shim
		// operation disabled (s.killing), i.e. nothing the dead process
		// would not have done reaches the filesystem
		runtime.Goexit()
	}
}

// Acquire blocks the calling logical thread until l is free, then takes it.
func Acquire(l *Lock, rd bool, label string) {
	s := cur
	if s.killing {
		return
	}
	t := s.me()
	if t.killed {
		return
	}
	t.Pend = label
	t.yield = false
	t.wait = l
	t.waitRd = rd
	s.park(t)
	// the scheduler only wakes us when the lock is free
	t.wait = nil
	if rd {
		l.Readers++
	} else {
		l.Writer = true
	}
}

func Release(l *Lock, rd bool) {
	if rd {
		l.Readers--
	} else {
		l.Writer = false
	}
}

// NextTemp returns a deterministic per-execution counter (temp file names).
func NextTemp() int {
	if !active.Load() {
		return -1
	}
	cur.tmpctr++
	return cur.tmpctr
}

// Run executes bodies as logical threads; choose picks an index into the
// enabled list at every point. killAt, if ≥0, kills thread killThread when it
// is about to be chosen for its killAt-th step (0-based) — crash simulation.
type RunOpts struct {
	Choose     func(step int, p *PointRec, pend []string) int
	KillThread int // -1: none
	KillAtStep int
}

func (s *Sched) Run(bodies []func(), o RunOpts) *Exec {
	if active.Load() {
		fatal("nested Run")
	}
	x := &Exec{Panics: map[int]any{}}
	s.parked = make(chan *Thread)
	s.threads = nil
	s.running = nil
	s.killing = false
	s.tmpctr = 0
	s.clock = -1
	if s.Horizon == 0 {
		s.Horizon = 5000
	}
	cur = s
	for i, b := range bodies {
		t := &Thread{ID: i, wake: make(chan struct{}), Pend: "start"}
		s.threads = append(s.threads, t)
		go func(t *Thread, b func()) {
			t.goid = goid()
			defer func() {
				// runs on normal return, panic and Goexit
				if r := recover(); r != nil {
					t.Panic = r
				}
				t.done = true
				s.parked <- t
			}()
			s.parked <- t
			<-t.wake
			if t.killed {
				return
			}
			b()
		}(t, b)
	}
	for range bodies {
		<-s.parked
	}
	active.Store(true)
	running := -1
	for step := 0; ; step++ {
		var enabled []int
		alldone := true
		var runningEnabled, runningYield bool
		for _, t := range s.threads {
			if t.done {
				continue
			}
			alldone = false
			if t.wait != nil && !t.wait.free(t.waitRd) {
				continue
			}
			if t.ID == running {
				runningEnabled = true
				runningYield = t.yield
				continue
			}
			enabled = append(enabled, t.ID)
		}
		if runningEnabled {
			if runningYield {
				// after a yield the other threads come first
				enabled = append(enabled, running)
			} else {
				enabled = append([]int{running}, enabled...)
			}
		}
		if alldone {
			break
		}
		if len(enabled) == 0 {
			x.Deadlock = true
			break
		}
		if step >= s.Horizon {
			x.Horizon = true
			break
		}
		if s.OnPoint != nil {
			s.OnPoint(step)
		}
		p := PointRec{Enabled: enabled, Running: running, Free: !runningEnabled || runningYield}
		pend := make([]string, len(enabled))
		for i, id := range enabled {
			pend[i] = s.threads[id].Pend
		}
		idx := o.Choose(step, &p, pend)
		if idx < 0 || idx >= len(enabled) {
			fatal("choice %d out of range (enabled %v) at step %d", idx, enabled, step)
		}
		t := s.threads[enabled[idx]]
		p.Chosen, p.Thread, p.Label = idx, t.ID, t.Pend
		x.Points = append(x.Points, p)
		x.Choices = append(x.Choices, idx)
		if o.KillThread == t.ID && t.Steps == o.KillAtStep {
			s.kill(t, x)
			running = -1
			continue
		}
		t.Steps++
		s.clock = step
		running = t.ID
		s.running = t
		t.wake <- struct{}{}
		<-s.parked
		s.running = nil
	}
	// abandon whatever is left (deadlock / horizon): kill so goroutines unwind
	for _, t := range s.threads {
		if !t.done {
			s.kill(t, x)
		}
	}
	for _, t := range s.threads {
		if t.Panic != nil {
			x.Panics[t.ID] = t.Panic
		}
	}
	active.Store(false)
	cur = nil
	return x
}

func (s *Sched) kill(t *Thread, x *Exec) {
	t.killed = true
	s.killing = true
	s.running = t
	t.wake <- struct{}{}
	for {
		d := <-s.parked
		if d == t && t.done {
			break
		}
	}
	s.running = nil
	s.killing = false
	x.Killed = append(x.Killed, t.ID)
}

var reIDs = regexp.MustCompile(`[0-9a-f]{64}|[0-9A-HJKMNP-TV-Z]{26}|[0-9a-f]{8}-[0-9a-f]{4}-[0-9a-f]{4}-[0-9a-f]{4}-[0-9a-f]{12}|/proc/self/fd/[0-9]+|fd=[0-9]+`)

// Canon masks random identifiers (ULIDs, UUIDs, fd numbers) in a label.
func Canon(label string) string {
	return reIDs.ReplaceAllString(label, "<id>")
}

// Go starts f as a new logical thread of the running execution (the
// instrumented form of a `go` statement); outside an exploration it is a
// plain goroutine.
func Go(f func()) {
	if !active.Load() {
		if SyncGo {
			// harness mode for sequential checks: spawned work completes before the spawner continues. Work that
			// does not complete within two seconds is a long-lived worker (a delivery loop, say): it is left running
			// and counted, and the caller has to wait for quiescence instead (see Detached).
			done := make(chan struct{})
			go func() { defer close(done); f() }()
			select {
			case <-done:
			case <-time.After(2 * time.Second):
				Detached.Add(1)
			}
			return
		}
		go f()
		return
	}
	s := cur
	if s.killing {
		return
	}
	parent := s.me()
	if parent.killed {
		return
	}
	t := &Thread{ID: len(s.threads), wake: make(chan struct{}), Pend: "start"}
	ready := make(chan struct{})
	go func() {
		t.goid = goid()
		defer func() {
			if r := recover(); r != nil {
				t.Panic = r
			}
			t.done = true
			s.parked <- t
		}()
		ready <- struct{}{}
		<-t.wake
		if t.killed {
			return
		}
		f()
	}()
	<-ready
	s.threads = append(s.threads, t)
}

// Clock returns the index of the scheduling step currently executing (the
// logical time of the calling thread); -1 outside an exploration.
func Clock() int {
	if !active.Load() {
		return -1
	}
	return cur.clock
}
