package sched

import "time"

// Explorer enumerates every interleaving of a scenario with at most Bound
// preemptions (iterative context bounding, Musuvathi & Qadeer). Executions
// always run to completion; choice 0 at a point means "keep running the
// current thread if it is enabled, otherwise the lowest thread id".
type Explorer struct {
	Bound int
	// Setup resets the shared state (scheduler inactive) and returns fresh
	// thread bodies for one execution.
	Setup func() []func()
	// Check is the oracle, called after each complete execution (scheduler inactive).
	Check func(x *Exec)
	// Mine, if non-nil, shards the level-1 subtrees over worker processes.
	Mine func(k int) bool
	// Deadline, if non-zero, stops the search (Capped is set).
	Deadline time.Time
	MaxExecs int64

	Execs     int64
	Points    int64
	MaxDepth  int
	Capped    bool
	Deadlocks int64
	Horizons  int64
	level1    int
	sched     Sched
}

func (e *Explorer) run(prefix []int) *Exec {
	bodies := e.Setup()
	x := e.sched.Run(bodies, RunOpts{KillThread: -1, Choose: func(step int, p *PointRec, pend []string) int {
		if step < len(prefix) {
			return prefix[step]
		}
		return 0
	}})
	e.Execs++
	e.Points += int64(len(x.Points))
	if len(x.Points) > e.MaxDepth {
		e.MaxDepth = len(x.Points)
	}
	if x.Deadlock {
		e.Deadlocks++
	}
	if x.Horizon {
		e.Horizons++
	}
	return x
}

// Replay runs one execution following choices (then choice 0) and returns it.
func (e *Explorer) Replay(choices []int) *Exec {
	return e.run(choices)
}

func (e *Explorer) Explore() {
	e.explore(nil, nil, 0)
}

func (e *Explorer) stop() bool {
	if e.Capped {
		return true
	}
	if (e.MaxExecs > 0 && e.Execs >= e.MaxExecs) || (!e.Deadline.IsZero() && time.Now().After(e.Deadline)) {
		e.Capped = true
		return true
	}
	return false
}

func (e *Explorer) explore(prefix []int, expect []string, depth int) {
	if e.stop() {
		return
	}
	x := e.run(prefix)
	for i := range expect {
		if i >= len(x.Points) || Canon(x.Points[i].Label) != expect[i] {
			got := "<execution ended>"
			if i < len(x.Points) {
				got = x.Points[i].Label
			}
			fatal("divergence while replaying a prefix at step %d: expected %q, got %q (nondeterminism not owned by the scheduler)", i, expect[i], got)
		}
	}
	if depth > 0 || e.Mine == nil || e.Mine(0) {
		e.Check(x)
	}
	labels := make([]string, len(x.Points))
	for i := range x.Points {
		labels[i] = Canon(x.Points[i].Label)
	}
	cost := 0
	for i := 0; i < len(x.Points); i++ {
		p := &x.Points[i]
		if i >= len(prefix) {
			for alt := 1; alt < len(p.Enabled); alt++ {
				c := cost
				if !p.Free {
					c++
				}
				if c > e.Bound {
					continue
				}
				if depth == 0 && e.Mine != nil {
					e.level1++
					if !e.Mine(e.level1) {
						continue
					}
				}
				np := append(append([]int{}, x.Choices[:i]...), alt)
				e.explore(np, labels[:i], depth+1)
			}
		}
		if p.Chosen != 0 && !p.Free {
			cost++
		}
	}
}
