package sched

// Chooser resolves nondeterministic choices of sequential code (map
// iteration order, environment answers) from a prefix, then 0; it records
// the width of every choice so ExploreChoices can enumerate all sequences.
type Chooser struct {
	prefix []int
	Trace  []int
	widths []int
}

// Choose returns a value in [0,n).
func (c *Chooser) Choose(n int) int {
	if n <= 1 {
		return 0
	}
	i := len(c.Trace)
	v := 0
	if i < len(c.prefix) {
		v = c.prefix[i]
		if v >= n {
			fatal("choice divergence: recorded choice %d of %d options at position %d", v, n, i)
		}
	}
	c.Trace = append(c.Trace, v)
	c.widths = append(c.widths, n)
	return v
}

// ExploreChoices runs body once per complete choice sequence (depth-first,
// lexicographic) and returns the number of runs. max>0 caps the runs
// (returns capped=true).
func ExploreChoices(max int, body func(c *Chooser)) (runs int, capped bool) {
	var prefix []int
	for {
		c := &Chooser{prefix: prefix}
		body(c)
		runs++
		if max > 0 && runs >= max {
			return runs, true
		}
		// next sequence: bump the last position that still has an alternative
		i := len(c.Trace) - 1
		for i >= 0 && c.Trace[i]+1 >= c.widths[i] {
			i--
		}
		if i < 0 {
			return runs, false
		}
		prefix = append(append([]int{}, c.Trace[:i]...), c.Trace[i]+1)
	}
}
